package symex

import (
	"fmt"

	"verif/engine/smt"

	"golang.org/x/tools/go/ssa"
)

// Precise indexing/slicing of byte strings that were assembled by append() from literal bytes
// and opaque chunks of known length (the output of btcd's txscript.ScriptBuilder run on symbolic
// keys: harness/onchain/script_*.go).
//
// The engine represents such a value as ONE String term str.++(c0, x1, c1, x2, ...) and forgets
// the chunk lengths, so b[i] becomes int2bv(str.to_code(str.at(...))) and every comparison of a
// literal opcode byte goes to the string solver (seconds per query, growing with the path
// condition).  The three harness helpers below have the plain Go bodies
//
//	func vNoteLen(b []byte)                 {}                  // no-op
//	func vByteAt(b []byte, i int) byte      { return b[i] }
//	func vSub(b []byte, lo, hi int) []byte  { return b[lo:hi] } // result used read-only
//
// and these intrinsics compute exactly the same values, but resolve positions syntactically:
// vNoteLen remembers (per path) the engine-tracked length N of an opaque chunk under its term;
// vByteAt / vSub walk the concatenation with those lengths, so a literal position yields a
// constant and a whole chunk yields the chunk's own term.  Whenever a length is not known the
// general encoding (str.at / str.substr) is used, i.e. the helpers never change the semantics.

const scriptPkg = "github.com/elementsproject/peerswap/onchain."

func (m *Machine) chunkLen(t *smt.Term) (int, bool) {
	if t.IsConst() {
		return len(t.S), true
	}
	if v, ok := m.ghost[fmt.Sprintf("bytelen:%d", t.ID)].(*smt.Term); ok && v.IsConst() {
		return int(v.U64()), true
	}
	return 0, false
}

// byteChunks splits a byte-slice value into consecutive chunks with known lengths.
// ok=false: not an opaque sequence or some chunk length is unknown.
func (m *Machine) byteChunks(s *SliceV) (parts []*smt.Term, lens []int, total int, ok bool) {
	ob, isOb := s.Arr.V.(*OpaqueBytes)
	if !isOb {
		return nil, nil, 0, false
	}
	parts = []*smt.Term{ob.T}
	if ob.T.Op == "str.++" {
		parts = ob.T.Args
	}
	for _, p := range parts {
		n, known := m.chunkLen(p)
		if !known {
			if len(parts) == 1 && ob.N >= 0 {
				n = ob.N
			} else {
				return nil, nil, 0, false
			}
		}
		lens = append(lens, n)
		total += n
	}
	if ob.N >= 0 && ob.N != total {
		return nil, nil, 0, false
	}
	return parts, lens, total, true
}

func constInt(v Value, what string) int {
	t := v.(*smt.Term)
	if !t.IsConst() {
		panic(unsupported(what + " must be concrete"))
	}
	return int(t.SignedVal().Int64())
}

func init() {
	I := intrinsics

	I[scriptPkg+"vNoteLen"] = func(m *Machine, fn *ssa.Function, args []Value) Value {
		s, _ := args[0].(*SliceV)
		if s == nil {
			return nil
		}
		if ob, ok := s.Arr.V.(*OpaqueBytes); ok && ob.N >= 0 {
			m.ghost[fmt.Sprintf("bytelen:%d", ob.T.ID)] = smt.BVC(64, uint64(ob.N))
		}
		return nil
	}

	I[scriptPkg+"vByteAt"] = func(m *Machine, fn *ssa.Function, args []Value) Value {
		s, _ := args[0].(*SliceV)
		i := constInt(args[1], "vByteAt index")
		if s == nil {
			m.end("panic", "index out of range on nil slice (vByteAt)")
		}
		if a, ok := s.Arr.V.(*ArrayV); ok {
			if i < 0 || i >= s.Len {
				m.end("panic", fmt.Sprintf("index out of range [%d] with length %d (vByteAt)", i, s.Len))
			}
			return a.E[s.Off+i]
		}
		ob := s.Arr.V.(*OpaqueBytes)
		parts, lens, total, ok := m.byteChunks(s)
		if !ok {
			if ob.N < 0 {
				panic(unsupported("vByteAt on a byte sequence of unknown length"))
			}
			if i < 0 || i >= ob.N {
				m.end("panic", fmt.Sprintf("index out of range [%d] with length %d (vByteAt)", i, ob.N))
			}
			return opaqueAt(ob, i)
		}
		if i < 0 || i >= total {
			m.end("panic", fmt.Sprintf("index out of range [%d] with length %d (vByteAt)", i, total))
		}
		off := 0
		for k, p := range parts {
			if i < off+lens[k] {
				if p.IsConst() {
					return smt.BVC(8, uint64(p.S[i-off]))
				}
				return opaqueAt(&OpaqueBytes{T: p, N: lens[k]}, i-off)
			}
			off += lens[k]
		}
		panic(unsupported("vByteAt: unreachable"))
	}

	I[scriptPkg+"vSub"] = func(m *Machine, fn *ssa.Function, args []Value) Value {
		s, _ := args[0].(*SliceV)
		lo := constInt(args[1], "vSub low bound")
		hi := constInt(args[2], "vSub high bound")
		if s == nil {
			if lo != 0 || hi != 0 {
				m.end("panic", "slice bounds out of range on nil slice (vSub)")
			}
			return (*SliceV)(nil)
		}
		if _, ok := s.Arr.V.(*ArrayV); ok {
			if lo < 0 || lo > hi || hi > s.Cap {
				m.end("panic", fmt.Sprintf("slice bounds out of range [%d:%d] with capacity %d (vSub)", lo, hi, s.Cap))
			}
			return &SliceV{Arr: s.Arr, Off: s.Off + lo, Len: hi - lo, Cap: s.Cap - lo}
		}
		ob := s.Arr.V.(*OpaqueBytes)
		parts, lens, total, ok := m.byteChunks(s)
		if !ok {
			if ob.N < 0 {
				panic(unsupported("vSub on a byte sequence of unknown length"))
			}
			total = ob.N
		}
		if lo < 0 || lo > hi || hi > total {
			m.end("panic", fmt.Sprintf("slice bounds out of range [%d:%d] with length %d (vSub)", lo, hi, total))
		}
		if !ok {
			sub := smt.StrSubstr(ob.T, smt.IntC(int64(lo)), smt.IntC(int64(hi-lo)))
			return m.bytesValue(sub, hi-lo)
		}
		var pieces []*smt.Term
		off := 0
		for k, p := range parts {
			a, b := max(lo, off), min(hi, off+lens[k])
			if a < b {
				switch {
				case p.IsConst():
					pieces = append(pieces, smt.StrC(p.S[a-off:b-off]))
				case a == off && b == off+lens[k]:
					pieces = append(pieces, p)
				default:
					pieces = append(pieces, smt.StrSubstr(p, smt.IntC(int64(a-off)), smt.IntC(int64(b-a))))
				}
			}
			off += lens[k]
		}
		return m.bytesValue(smt.StrConcat(pieces...), hi-lo)
	}
}
