package symex

import (
	"fmt"
	"go/token"
	"os"
	"path/filepath"
	"strings"

	"golang.org/x/tools/go/packages"
	"golang.org/x/tools/go/ssa"
	"golang.org/x/tools/go/ssa/ssautil"
)

const ModPath = "github.com/elementsproject/peerswap"

// HarnessOverlay maps every file under harnessDir/<pkgdir>/x.go to repo/<pkgdir>/zz_verif_x.go.
func HarnessOverlay(repo, harnessDir string) (map[string]string, error) {
	out := map[string]string{}
	err := filepath.Walk(harnessDir, func(p string, info os.FileInfo, err error) error {
		if err != nil || info.IsDir() || !strings.HasSuffix(p, ".go") {
			return err
		}
		rel, _ := filepath.Rel(harnessDir, p)
		dir, base := filepath.Split(rel)
		out[filepath.Join(repo, dir, "zz_verif_"+base)] = p
		return nil
	})
	return out, err
}

// Load type-checks the given package patterns of /repo (with the overlay harness files) and builds SSA.
func Load(repo string, overlay map[string]string, pkgs []string, extraExec []string) (*Program, error) {
	ov := map[string][]byte{}
	for virt, real := range overlay {
		b, err := os.ReadFile(real)
		if err != nil {
			return nil, err
		}
		ov[virt] = b
	}
	fset := token.NewFileSet()
	cfg := &packages.Config{
		Mode: packages.NeedName | packages.NeedFiles | packages.NeedCompiledGoFiles | packages.NeedImports |
			packages.NeedTypes | packages.NeedTypesSizes | packages.NeedSyntax | packages.NeedTypesInfo | packages.NeedDeps,
		Dir:        repo,
		Fset:       fset,
		BuildFlags: []string{"-tags=verif,fast_test"},
		Overlay:    ov,
		Env:        append(os.Environ(), "GOFLAGS=-mod=mod", "GOPROXY=off", "GOSUMDB=off", "GOTOOLCHAIN=local"),
	}
	// module-internal dependencies of the harness packages are loaded from source as well
	// (their bodies are executed); everything else comes from export data
	depCfg := *cfg
	depCfg.Mode = packages.NeedName | packages.NeedImports | packages.NeedDeps
	depPkgs, err := packages.Load(&depCfg, pkgs...)
	if err != nil {
		return nil, err
	}
	seen := map[string]bool{}
	for _, p := range pkgs {
		seen[p] = true
	}
	packages.Visit(depPkgs, nil, func(p *packages.Package) {
		if strings.HasPrefix(p.PkgPath, ModPath+"/") && !strings.HasSuffix(p.PkgPath, "/zzverif") {
			rel := "./" + strings.TrimPrefix(p.PkgPath, ModPath+"/")
			if !seen[rel] {
				seen[rel] = true
				pkgs = append(pkgs, rel)
			}
		}
	})
	// LoadSyntax-style: syntax only for the listed packages, dependencies from export data
	cfg.Mode &^= packages.NeedDeps
	initial, err := packages.Load(cfg, pkgs...)
	if err != nil {
		return nil, err
	}
	var errs []string
	packages.Visit(initial, nil, func(p *packages.Package) {
		for _, e := range p.Errors {
			errs = append(errs, e.Error())
		}
	})
	if len(errs) > 0 {
		return nil, fmt.Errorf("load errors:\n%s", strings.Join(errs, "\n"))
	}
	prog, ssapkgs := ssautil.Packages(initial, ssa.InstantiateGenerics)
	res := &Program{Prog: prog, Fset: fset, Pkgs: map[string]*ssa.Package{}, ExecPrefixes: append([]string{ModPath}, extraExec...)}
	for i, p := range ssapkgs {
		if p == nil {
			return nil, fmt.Errorf("no SSA for %s", initial[i].PkgPath)
		}
		p.Build()
		res.Pkgs[p.Pkg.Path()] = p
	}
	return res, nil
}
