package symex

// Logical goroutines: zzverif.Concurrently(fn) runs fn as a second logical goroutine of the program under
// test.  Exactly one logical goroutine runs at any time (the interpreter state is shared); a goroutine
// that tries to take a mutex owned by another one is parked and resumed as soon as the owner releases it.
// This is one deterministic schedule per park/resume pattern - enough to model "a timer / message arrives
// while a transition is in flight": the late comer blocks on the swap mutex exactly as the real one does.

type lgor struct {
	id       int
	resume   chan struct{}
	back     chan struct{} // where this goroutine yields to: set by whoever resumed it last
	parkedOn string
	done     bool
	idle     bool // ended waiting for a channel or condition (not an error)
	abort    bool
	panicVal interface{}
	ctx      gctx
}

type gorIdle struct{ msg string }

type gctx struct {
	depth     int
	stack     []string
	curFrame  int
	heldOrder []string
}

func (m *Machine) saveCtx() gctx {
	return gctx{depth: m.depth, stack: m.stack, curFrame: m.curFrame, heldOrder: m.heldOrder}
}

func (m *Machine) restoreCtx(c gctx) {
	m.depth, m.stack, m.curFrame, m.heldOrder = c.depth, c.stack, c.curFrame, c.heldOrder
}

func (m *Machine) curGid() int {
	if m.cur == nil {
		return 0
	}
	return m.cur.id
}

// spawnLogical starts fn and runs it until it finishes or parks.
func (m *Machine) spawnLogical(body func()) {
	g := &lgor{id: len(m.gors) + 1, resume: make(chan struct{})}
	m.gors = append(m.gors, g)
	saved := m.saveCtx()
	prev := m.cur
	m.cur = g
	m.depth, m.stack, m.curFrame, m.heldOrder = 0, nil, 0, nil
	go func() {
		defer func() {
			if r := recover(); r != nil {
				if _, idle := r.(gorIdle); idle {
					g.idle = true
				} else {
					g.panicVal = r
				}
			}
			g.done = true
			g.back <- struct{}{}
		}()
		<-g.resume
		body()
	}()
	m.run(g)
	m.cur = prev
	m.restoreCtx(saved)
	m.propagate(g)
}

// run hands control to g and waits until it parks or finishes.
func (m *Machine) run(g *lgor) {
	g.back = make(chan struct{})
	g.resume <- struct{}{}
	<-g.back
}

func (m *Machine) propagate(g *lgor) {
	if g.done && g.panicVal != nil {
		pv := g.panicVal
		g.panicVal = nil
		panic(pv)
	}
}

// park suspends the current logical goroutine until lock k is released.
func (m *Machine) park(k string) {
	g := m.cur
	g.parkedOn = k
	g.ctx = m.saveCtx()
	m.effect("parked", nil)
	g.back <- struct{}{}
	<-g.resume
	if g.abort {
		panic(pathEnd{"abandoned", "logical goroutine abandoned at path end"})
	}
	m.restoreCtx(g.ctx)
}

// wake resumes the goroutines parked on k (called after k was released).
func (m *Machine) wake(k string) {
	for _, g := range m.gors {
		if g.done || g.parkedOn != k || g == m.cur {
			continue
		}
		if _, held := m.held[k]; held {
			return // taken again by an earlier waiter
		}
		saved := m.saveCtx()
		prev := m.cur
		m.cur = g
		g.parkedOn = ""
		m.run(g)
		m.cur = prev
		m.restoreCtx(saved)
		m.propagate(g)
	}
}

// abandonLogical ends the host goroutines of parked logical goroutines when a path is over.
func (m *Machine) abandonLogical() {
	for _, g := range m.gors {
		if !g.done && g.parkedOn != "" {
			g.abort = true
			m.run(g)
		}
	}
	m.gors = nil
	m.cur = nil
}

// blockedLogical counts goroutines that are still parked.
func (m *Machine) blockedLogical() int {
	n := 0
	for _, g := range m.gors {
		if !g.done && g.parkedOn != "" {
			n++
		}
	}
	return n
}
