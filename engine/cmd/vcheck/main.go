// vcheck: run <Cxx> [--tier quick|thorough] | replay <dir>
package main

import (
	"flag"
	"fmt"
	"os"
	"strconv"

	"verif/engine/check"
	"verif/engine/symex"
)

func main() {
	if len(os.Args) < 3 {
		fmt.Fprintln(os.Stderr, "usage: vcheck run <Cxx> [flags] | vcheck replay <dir>")
		os.Exit(2)
	}
	cmd, arg := os.Args[1], os.Args[2]
	fs := flag.NewFlagSet("vcheck", flag.ExitOnError)
	tier := fs.String("tier", "quick", "quick|thorough")
	repo := fs.String("repo", "/repo", "repository root")
	verif := fs.String("verif", "/verif", "verif root")
	verbose := fs.Bool("v", false, "verbose")
	entry := fs.String("entry", "", "only this harness entry")
	noReplay := fs.Bool("no-replay", false, "skip native replay/validation")
	workers := fs.Int("workers", 8, "parallel entries")
	inner := fs.Int("inner", 6, "parallel workers inside one entry")
	fs.Parse(os.Args[3:])
	if t := os.Getenv("VERIF_TIER"); t == "quick" || t == "thorough" {
		*tier = t
	}
	seed, _ := strconv.Atoi(os.Getenv("VERIF_SEED"))
	cfg := check.Config{Repo: *repo, Verif: *verif, Property: arg, Tier: *tier, Seed: seed, Verbose: *verbose,
		OnlyEntry: *entry, NoReplay: *noReplay, Workers: *workers, Inner: *inner}
	switch cmd {
	case "run":
		rc := check.Run(cfg)
		symex.DumpSites()
		os.Exit(rc)
	case "replay":
		os.Exit(check.ReplayDir(cfg, arg))
	}
	fmt.Fprintln(os.Stderr, "unknown command", cmd)
	os.Exit(2)
}
